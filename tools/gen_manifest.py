#!/usr/bin/env python3
"""Regenerates /verif/MANIFEST.json from the table below (run after adding a check)."""
import json, os, subprocess
V = os.path.dirname(os.path.dirname(os.path.abspath(__file__)))
props = [json.loads(l) for l in open(os.path.join(V, "properties.jsonl"))]

STORE_NOTE = ("Trusted: Lean 4.33 kernel (axioms propext, Classical.choice, Quot.sound only; no native_decide); the hand-written model "
              "XsModel/{Bytes,Part,Frame,Store,Run}.lean; the per-step correspondence (every op of every generated history is executed on the real "
              "crate and on the model from the implementation's dumped pre-state; observations and post-state compared); fjall as a byte-ordered map "
              "with atomic batches; scru128 ids 128-bit and increasing; hooks (clock, gc gate, partition dump) behind cargo feature verif.")

CLAIMED = {
 "C01": dict(text="Theorems over the Lean model of Store::{append,insert_frame,remove,read_sync,read,get,iter_frames,gc,new}: for every history and every "
             "(context|all, last-id, limit, clock) a read returns exactly the stored in-scope unexpired frames after last-id, ascending, cut to limit; get returns exactly "
             "the stored frame. The model is tied to /repo on every run by differential execution (per-step refinement check from the implementation's actual state).",
             design="5/C01", technique="Lean 4 invariant + refinement proof over a hand model; correspondence by per-step differential execution"),
 "C05": dict(text="Theorems: index partitions stay in lock-step over every history; get ⇔ all-contexts scan ⇔ own-context scan; head = last stored frame of exactly that "
             "(context, topic) for every NUL-free topic byte string (prefix exactness of ctx‖topic‖0x00 proved over the byte encoding); NUL topics rejected without trace.",
             design="5/C05", technique="Lean 4 proof over byte-level key encodings; correspondence by per-step differential execution"),
 "C06": dict(text="Theorems (store access paths): context-scoped scans/reads/head return only frames of that context, adjacent ids included (range [ctx,ctx+1) exactness over "
             "the 16-byte big-endian encoding); only the all-contexts scan sees everything. Follow/HTTP/handler paths are checked by the C03/C13/C14 layers when present.",
             design="5/C06", technique="Lean 4 proof (range exactness) + differential execution on every access path of the store"),
 "C07": dict(text="Theorems: the registry equals {0} ∪ ids of stored zero-context xs.context frames after every history (append, import, remove, gc, reopen); append accepted iff "
             "registered / xs.context in zero context; xs.context forced to forever; rejected append changes nothing; registry equal before and after reopen.",
             design="5/C07", technique="Lean 4 invariant proof; correspondence incl. process restarts (kill and clean)"),

 "C08": dict(text="Theorems: one-step retention (a stored frame stops being stored only by an explicit remove, a write under its own id, or a gc task that names it / finds it "
             "outside the keep newest of exactly its context and topic) for every reachable state; every queued task is justified by the history (Remove ⇐ a read found that frame's "
             "time:N elapsed; CheckHeadTTL ⇐ an accepted head:k append); head collection never touches other topics (prefix-related included) or contexts; expiry is exactly ts+N ≤ now.",
             design="5/C08", technique="Lean 4 proof by induction over histories (gc queue provenance) + differential execution with a gated collector and a controlled clock, and with explicit removals racing the free-running head:N collector"),
 "C09": dict(text="Theorems: an ephemeral append changes no partition/registry/queue and is broadcast; time:N frames are returned by neither read path once elapsed and are gone after "
             "an unlimited read + drain; a pending head:k check leaves at most k frames after drain and the survivors are exactly the k newest.",
             design="5/C09", technique="Lean 4 proof over the gc model + differential execution (clock at expiry ±1 ms, per-task gc release, expiry passing mid-scan, ephemeral appends racing a follower's subscription under controlled schedules)"),
 "C20": dict(text="Theorems: importing any permutation of a reachable store's frames into an empty store yields the same stored frames (ids, order, fields) and the same usable "
             "contexts, hence identical reads/gets/heads; import order irrelevant; re-import idempotent; import keeps id and id-position; NUL topic rejected whole; import is silent.",
             design="5/C20", technique="Lean 4 proof (permutation invariance via sorted-list extensionality) + differential execution incl. export→permuted re-import round trips, at the store level and between two servers over HTTP"),

 "C02": dict(text="Theorems over the append/follow LTS (any number of writers, any interleaving at the granularity of id-assignment / commit / broadcast / subscribe / scan / live steps): "
             "the stored stream only grows at its end by frames with greater ids; broadcasts are in id order; a last-id poller receives exactly the frames appended since its last poll; "
             "no second append.id and no follow subscription is enabled while an append is in flight (the append lock). The implementation's observed executions are replayed on the LTS.",
             design="5/C02", technique="Lean 4 invariant proof over a labelled transition system; correspondence by replaying hook-observed executions + hook-free 8-writer stress",
             note="B"),
 "C03": dict(text="Theorems over the same LTS for every schedule: history part = every stored in-scope frame after the start position up to the scan cursor, once, in order; live part = exactly "
             "the in-scope frames broadcast since the subscription (ephemeral included) with nothing skipped while the stream is open and unlagged; deliveries strictly increasing in id; history ≤ cut < live; "
             "exactly one xs.threshold between the two parts for an unlimited non-tail follow; at the hand-over the history part is every stored in-scope frame up to the cut, and a caught-up "
             "reader has received exactly that, the threshold, and every in-scope frame broadcast since it subscribed.",
             design="5/C03", technique="Lean 4 invariant proof over a labelled transition system; correspondence by replaying hook-observed schedules (appends released at every reader step)",
             note="B"),
 "C11": dict(text="Theorems: with limit n ≥ 1 never more than n frames; when n are delivered and the reader's tasks have wound down the stream is closed (history thread, live task and heartbeat all "
             "gone) and a closed stream admits no further step; tail delivers no history; pulses only with heartbeat and the heartbeat stops with live delivery; no threshold unless unlimited non-tail follow; "
             "a lagged subscription takes nothing further and ends.",
             design="5/C11", technique="Lean 4 invariant proof over a labelled transition system; correspondence incl. slow-consumer lag (>1024 behind, during and after replay)",
             note="B"),

 "C12": dict(text="Theorems: TTL print→parse identity and parse soundness (head:0, signs, overflow, junk never become values); u64/u32 and 25-char base-36 id text round trips; "
             "ReadOptions survive to_query_string→from_query through a modelled form-urlencoding (all follow modes, ms heartbeats, tail, last-id, limit, context) with the rejection and "
             "acceptance oddities stated; Frame ↔ JSON value tree round trip incl. the nesting limit; after every history every stored frame is decodable (insert_frame refuses the rest).",
             design="5/C12", technique="Lean 4 proofs over executable models of the parsers/printers; differential execution of the real parse_ttl / from_query / to_query_string / serde Frame on generated and mutated inputs",
             note="W"),

 "C13": dict(text="Theorems over the Lean Route model (match_route arm order + handle over the store model): every request is answered 200/204/400/404 (no dropped connection, no 5xx for a "
             "request the store rejects); a request answered ≥400 leaves the stream unchanged; GET/DELETE/{id}, GET /, POST /{topic}, GET /head are exactly Store::get/remove/read/append/head; "
             "head --follow is scoped to context and topic; route-table precedence; bad ids are 400. Raw requests are run against the real server and the model after every request.",
             design="5/C13", technique="Lean 4 proofs over a model of the dispatcher; differential execution of raw HTTP requests (status, rendering, dropped/hung connection, partitions)",
             note="H"),
 "C10": dict(text="Theorems: POST /cas then GET returns the bytes under the reported hash; empty POST /cas rejected; POST /{topic} without body gives no hash, with a body the frame's hash is the "
             "content's and the content is in the CAS in the state in which the frame first exists; content is never lost by later requests; the hash depends on the body alone. The run recomputes "
             "sha256 independently, checks same-bytes-same-hash across entry points and reads content back right after each append.",
             design="5/C10", technique="Lean 4 proofs over the Route model with a content map; differential execution incl. binary / 8 KiB-boundary / chunked bodies",
             note="H"),

 "C04": dict(text="Theorems: the journal a history writes (one batch per append/import/remove, one per frame a gc task removes) replays to exactly the partitions the history leaves; append/import/remove "
             "commit at most one batch; an image holding the batches of the first k operations (plus any torn tail) recovers to the state after those k operations; a crash during a write recovers to the "
             "state before or after it; the recovered partitions with the rebuilt registry satisfy the store invariant. fjall's journal contract is assumed and exercised: SIGKILL after / during operations, "
             "torn-tail (power-loss) images, a syscall-level check that every acknowledgement follows an fsync of the journal, content present for visible hashed frames.",
             design="5/C04", technique="Lean 4 proof over a journal model (one-batch-per-operation refinement); crash images from real kills (random instants, every write(2) of multi-key histories, sync points inside HTTP appends) + strace-checked fsync-before-ack discipline",
             note="J"),
 "C14": dict(text="Theorems over the Lean model of one handler instance (Handler::serve / process_frame / EngineWorker; the closure is an arbitrary function of environment and frame): the closure "
             "is run for exactly the frames of its subscription that are neither its own output nor registration traffic of its name - each once, in delivery order, up to the frame that stops it; never for "
             "its own output (so it cannot feed itself), never after it stopped; the subscription holds its context's frames only and every frame appended after it subscribed; the environment of one call "
             "is what the next starts from; invocations are in increasing id order when the stream is. Every started instance of every scenario is replayed on the model.",
             design="5/C14", technique="Lean 4 proof over a model of the handler loop (closure as a parameter); correspondence by replaying each real instance's subscription on the model, incl. pulse markers and appends during a held replay", note="S"),
 "C15": dict(text="Theorems: every frame a call emits carries handler_id and frame_id (written after the user's meta, so they cannot be overridden; other user keys survive) and the handler's context whatever "
             "--context said; a successful call emits the explicit appends in call order, then the return value on <name><suffix> with the configured TTL; a failing call emits nothing but one "
             "<name>.unregistered with the error, wherever the failure sits - also when one of its frames could not be stored; interleaved outputs of different instances separate by their stamp. The run also checks that each emitted frame's content is in the CAS when a follower is handed the frame.",
             design="5/C15", technique="Lean 4 proof over the handler model; correspondence over generated behaviour tables rendered to nushell scripts", note="S"),
 "C16": dict(text="Theorems: a later .register / .unregister of its name stops an instance (so at most one instance per context and name outlives a new registration); closure error and invalid script stop / "
             "reject it; every stop is announced by exactly one <name>.unregistered, the last frame the instance emits; a stopped instance processes nothing; start_handler subscribes before it announces, "
             "so everything appended once <name>.registered is visible is in the subscription's live part; every .register is answered by exactly one frame; a tail handler superseded before it subscribed never starts; "
             "a started instance is handed every later .register / .unregister of its key (any resume mode) and ends stopped; the start-up scan keeps one registration per (context, name). The subscribe/announce order of the "
             "real code is read from sync points.",
             design="5/C16", technique="Lean 4 proof over the handler and serve-loop models, incl. the joint LTS of serve loop, all instances and clients; correspondence incl. sync-point order of subscribe vs announce", note="S"),
 "C17": dict(text="Theorems over the fold model of the start-up scan (handlers/serve.rs) keyed by (context, name): a registration is started again iff nothing later in the stored stream dropped it (characterisation "
             "of the fold for every history); given that stops are announced (C16), that is iff its live instance was still running (for an instance the loop started, the coverage hypothesis is a theorem); replaced / failed / rejected / unregistered registrations never come back; "
             "frames of other contexts are irrelevant; restarts are in id order with the register frame's id; tail resumption re-executes nothing. Kill + restart scenarios compare who is announced with the model. "
             "Generators and commands: see C18/C19.",
             design="5/C17", technique="Lean 4 proof (fold characterisation + link to the instance model); correspondence over kill/restart scenarios", note="S"),
 "C18": dict(text="Theorems over the Lean model of the generator loop (generators/serve.rs; the pipeline is a parameter): a lifecycle is start, one recv per produced string in production order with that string "
             "as content, stop - all with the spawn's id as source_id in the spawn's context; an accepted spawn starts a task named by the spawn frame; a live stop of a running task starts it again as the same task; "
             "a spawn for a running name or without content yields exactly one spawn.error naming it; a duplex instance reads the content of exactly the send frames of its context stored after its start, once, in order; "
             "restart keeps the spawns that are the last spawn / spawn.error of their (context, name). Scenarios (lists, single values, empty pipelines, duplex echo, rejected spawns, sends in two contexts, kill + restart) "
             "are run on the real loop and compared with the model. Pipelines that do not parse or yield non-strings panic the worker thread (F17, recorded) and are outside the statements.",
             design="5/C18", technique="Lean 4 proof over a model of the generator loop; correspondence over generated pipelines incl. duplex input and restarts", note="S"),
 "C19": dict(text="Theorems over the Lean model of the command loop (commands/serve.rs; the closure is a function of definition and call frame): a call yields one <name><suffix> per value in order with the configured "
             "TTL in the caller's context, then exactly one complete - or the results before a failure and exactly one error; every frame of a call (explicit appends included) is stamped with the definition's and the call's id; "
             "a call runs the definition in force under (caller's context, name); the latest valid definition wins, an invalid one is reported once and changes nothing; undefined names do nothing; calls met in the stored "
             "history are never run; a start-up emits only definition errors and restores exactly the definitions in force; however the frames of concurrent calls interleave, selecting by frame_id gives back each call's frames. Sequential and concurrent calls, redefinitions, byte-streamed explicit appends and restarts are run "
             "on the real loop and compared per call.",
             design="5/C19", technique="Lean 4 proof over a model of the command loop; correspondence per call over generated definitions, concurrent bursts and restarts", note="S"),
}

SERVE_NOTE = ("Trusted: Lean 4.33 kernel (axioms propext, Classical.choice, Quot.sound only); hand models XsModel/{Handler,Registry,Command,Generator}.lean; nushell itself (the closure is a parameter of the model; generated scripts "
              "are rendered from a behaviour table that the Lean driver interprets - a wrong rendering shows up as a disagreement); the store's follow subscription as proved for C02/C03/C06. Tie: scenarios run on "
              "the real serve loops (as `xs serve` starts them) in the worker; a tap follower records every frame; each started instance's subscription is rebuilt from the tap and run on the model; announcements "
              "and outputs must agree.")

JOURNAL_NOTE = ("Trusted: Lean 4.33 kernel; hand model XsModel/Journal.lean; ASSUMED (not verified): fjall recovers a batch iff it is completely on disk and persist(SyncAll) makes the journal durable; "
                "the OS keeps completed writes of a killed process. Tie: histories run in a child process killed after an acknowledged write or a random delay into the next one; the directory and "
                "torn-tail variants (acknowledged image + prefix of the journal bytes written since) are reopened in a fresh process and must equal the acknowledged state or that state plus the whole "
                "in-flight operation; strace checks that no acknowledgement is written while journal bytes are unsynced. The store directory is on tmpfs, so real power loss is simulated, not produced.")

HTTP_NOTE = ("Trusted: Lean 4.33 kernel (axioms propext, Classical.choice, Quot.sound only); the hand model XsModel/Route.lean (inputs: hyper's parsed request, pre-classified xs-meta decoding, "
             "decoded import body, sha256 of the body); hyper, base64, serde_json text layer, cacache. Tie: raw request bytes are sent to the real server over its unix socket and the same "
             "request is given to the model; status, body rendering (frame / NDJSON / SSE / bytes / hash), connection fate and the three partitions are compared after every request; follow "
             "streams are held open across appends and their tail compared with the subscription filter the model reports.")

WIRE_NOTE = ("Trusted: Lean 4.33 kernel (axioms propext, Classical.choice, Quot.sound only); hand models XsModel/{Ttl,Query,Json}.lean of parse_ttl, uN::from_str, Display, "
             "Scru128Id text, form_urlencoded parse/serialize (plain subset proved, full decoder executed), serde field presence rules, serde_json's 128 recursion limit; the JSON text layer, "
             "ssri hash validity and base64 are the libraries' (exercised, not modelled). Tie: every generated input is run through the real code and the model; accepted values, rejections and printed text must agree.")

FOLLOW_NOTE = ("Trusted: Lean 4.33 kernel (axioms propext, Classical.choice, Quot.sound only); the hand-written LTS XsModel/Follow.lean (one reader, any number of writers through the append lock; "
               "TTL expiry/removal during a follow not modelled); the correspondence: the global order in which threads reach the verif sync points is replayed as LTS actions (each must be enabled and handle "
               "the frame the model expects; final deliveries, stream end and stored frames must agree) and the property statements are evaluated on the observed execution; tokio broadcast (FIFO, cap 1024, "
               "lag error), mpsc FIFO, std Mutex, scru128 monotonic ids.")

def check_entry(pid):
    c = CLAIMED[pid]
    return {
        "property_id": pid,
        "quick_cmd": f"./check {pid} --tier quick",
        "thorough_cmd": f"./check {pid} --tier thorough",
        "evidence_file": f"/verif/evidence/{pid}.json",
        "replay_cmd_template": f"./check {pid} --replay {{path}}",
        "engine": "lean+xsw",
        "level_claimed": {"category": "proof", "text": c["text"], "design_ref": "DESIGN.md section " + c["design"]},
        "level_note": FOLLOW_NOTE if c.get("note") == "B" else WIRE_NOTE if c.get("note") == "W" else HTTP_NOTE if c.get("note") == "H" else JOURNAL_NOTE if c.get("note") == "J" else SERVE_NOTE if c.get("note") == "S" else c.get("note", STORE_NOTE),
        "technique": c["technique"],
    }

hook_commits = subprocess.run(["git", "-C", "/repo", "log", "--format=%h %s"], capture_output=True, text=True).stdout.splitlines()
hook_commits = [l.split()[0] for l in hook_commits if "verif hook" in l]

m = {
 "version": 1,
 "setup_cmd": "./setup.sh",
 "hooks": {
   "guard": "cargo feature `verif` (Cargo.toml: [features] verif = [])",
   "enable": "the harness crate /verif/harness depends on cross-stream (path = /repo) with features = [\"verif\"]; every check runs `cargo build --offline` there, which rebuilds /repo's working tree with the hooks on",
   "baseline_off_cmd": "cd /repo && (cargo nextest run --workspace --no-fail-fast --tool-config-file pb:/w/lib/nextest.toml --profile pb --test-threads 8 --offline || cargo test --workspace --no-fail-fast --offline)",
   "source_commits": hook_commits,
   "add_only": True},
 "engines": [
   {"name": "lean", "path": "/verif/lean", "serves_properties": sorted(CLAIMED), "kind_free_text": "Lean 4 model (XsModel), lemmas (XsProofs), property theorems (XsProps), driver xsdrv"},
   {"name": "xsw", "path": "/verif/harness", "serves_properties": sorted(CLAIMED), "kind_free_text": "Rust worker executing operations on the real crate (feature verif)"},
   {"name": "check", "path": "/verif/check", "serves_properties": sorted(CLAIMED), "kind_free_text": "Python orchestrator: build, axiom audit, case generation, differential comparison, shrinking, evidence"}],
 "checks": [check_entry(p["id"]) for p in props if p["id"] in CLAIMED],
 "not_applicable": [{"property_id": p["id"], "reason": "not claimed yet: its layer of the model/harness is still being built (DESIGN.md section 7); the technique applies"}
                    for p in props if p["id"] not in CLAIMED],
 "notes": "All checks share one Lean project and one Rust worker; see DESIGN.md.",
}
json.dump(m, open(os.path.join(V, "MANIFEST.json"), "w"), indent=1)
print("claimed:", sorted(CLAIMED))
