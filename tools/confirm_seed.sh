#!/bin/sh
# usage: confirm_seed.sh <seed-dir> <worktree> <demo-test-name>
# Confirms in a scratch worktree: with the patch the crate builds (default + verif), the existing
# tests pass and the demonstration fails; without it the demonstration passes.
S="$1"; W="$2"; T="$3"; F="$4"   # F: extra cargo args for the demo, e.g. "--features verif"
export CARGO_TARGET_DIR="$W/target" CARGO_NET_OFFLINE=true
cd "$W" || exit 2
git checkout -q -- . ; git apply "$S/patch.diff" || { echo "RESULT patch-does-not-apply"; exit 3; }
cargo build --offline --features verif >/dev/null 2>&1 && echo "build(verif): ok" || echo "build(verif): FAIL"
cp "$S/demo.rs" "tests/$T.rs"
cargo nextest run --workspace --no-fail-fast --tool-config-file pb:/w/lib/nextest.toml --profile pb --test-threads 8 --offline -E 'not binary(/demo/)' 2>&1 | grep -E "Summary|FAIL|TIMEOUT" | head -8
echo "--- demo WITH change:"; cargo test --offline $F --test "$T" 2>&1 | grep -E "^test result|panicked" | head -4
git checkout -q -- src
echo "--- demo WITHOUT change:"; cargo test --offline $F --test "$T" 2>&1 | grep -E "^test result|panicked" | head -4
rm -f "tests/$T.rs"; git status --short | head -3
