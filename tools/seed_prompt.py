#!/usr/bin/env python3
"""prints the prompt given to an independent sub-agent that seeds a breaking change"""
import json, sys
pid = sys.argv[1]
p = next(json.loads(l) for l in open('/verif/properties.jsonl') if json.loads(l)['id'] == pid)
print(f"""You are working on a scratch git worktree of the Rust project cablehead/xs (crate `cross-stream`, a local-first event stream store) at /tmp/wt-{pid}. Work ONLY inside /tmp/wt-{pid} and /tmp/seedout/{pid} (create it). Do not read or touch /repo or /verif or any other directory. The sandbox is offline: use `cargo ... --offline`; set CARGO_TARGET_DIR=/tmp/wt-{pid}/target (already warm).

Here is a semantic property the system is supposed to have:

  Title: {p['title']}
  Statement: {p['statement']}
  Quantified over: {p['quantifier']['text']}

Your task: write a *realistic* change to the source under /tmp/wt-{pid}/src (the kind of slip or 'optimisation' a developer could make) that BREAKS this property, while the crate still compiles (with default features AND with `--features verif`) and the existing test suite still passes (`cargo nextest run --workspace --no-fail-fast --offline` in the worktree). The breakage must need something specific to manifest - a particular multi-step sequence of operations, an unusual input, a particular interleaving/crash point, or two cooperating sites that each look fine alone - NOT something ordinary use would expose at once. Keep the change small (a few lines). Do not touch tests, Cargo.toml features, or src/verif.rs; keep lines starting with `#[cfg(feature = "verif")]` and the statement following them intact.

Also write a demonstration: a Rust test (a new file under /tmp/wt-{pid}/tests/ or a #[test] appended to a test module) or a small program that FAILS with your change and PASSES without it (verify both, e.g. by saving your diff to a file and using `git apply -R`; do NOT use `git stash` - the stash is shared with other worktrees). 

Deliver into /tmp/seedout/{pid}/:
  - patch.diff : `git diff` of ONLY the breaking change under src/ (not the demonstration)
  - demo.rs (or demo.sh) : the demonstration, plus in a comment how to run it
  - notes.md : which part of the property breaks, what exactly is needed for it to manifest, what you ran and the results (tests pass with change; demo fails with change; demo passes without).
When done, leave the worktree with the breaking change reverted (`git checkout -- src`), and reply with a 5-line summary.""")
