#!/bin/sh
# usage: tools/mutbatch.sh <dir-with-diffs> <list-file: "name props...">  - applies each diff to /repo, runs the quick checks, undoes it
D="$1"; L="$2"
while read name props; do
  [ -z "$name" ] && continue
  echo "== $name ($props)"
  cd /repo && git apply "$D/$name.diff" 2>/dev/null || { echo "   does-not-apply"; continue; }
  if ! (cd /repo && cargo build --offline >/dev/null 2>&1); then echo "   does-not-compile"; git -C /repo checkout -- .; continue; fi
  caught=""
  for c in $props; do
    out=$(cd /verif && ./check "$c" --tier quick 2>&1)
    if echo "$out" | grep -q "^VIOLATION"; then caught="$caught $c$(echo "$out" | grep -q no-failing-input-found && echo '(nofi)')"; fi
    echo "$out" | grep -E "^C[0-9]+: " | sed 's/^/   /'
  done
  echo "   RESULT $name caught_by:[$caught ]"
  git -C /repo checkout -- .
done < "$L"
git -C /repo status --short | head -3
echo "batch done"
