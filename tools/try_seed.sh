#!/bin/sh
# usage: try_seed.sh <patch.diff> <prop> [<prop>...]   -- apply to /repo, run the quick checks, undo
P="$1"; shift
cd /repo && git apply "$P" || { echo "patch does not apply"; exit 3; }
for c in "$@"; do
  (cd /verif && ./check "$c" --tier quick 2>&1 | grep -v "^WARNING" | cut -c1-300 | tail -4; echo "  -> $c rc=$?")
done
git -C /repo checkout -- . ; git -C /repo status --short | head -3
